"""Per-property configuration of the orchestrator: theorem modules, harnesses, view, monitors."""

LEAN_TB = ["Lean 4.33.0 kernel (lake build; leanchecker in thorough tier)",
           "axioms allowed: propext, Classical.choice, Quot.sound (checked per theorem with #print axioms)"]

HARNESSES = {
    # harness sub-directory -> (package directory under /repo, package name for the common helper)
    "packages": {
        "proto": ("internal/proto", "proto"),
        "turn": (".", "turn"),
        "server": ("internal/server", "server"),
        "client": ("internal/client", "client"),
        "allocation": ("internal/allocation", "allocation"),
    },
    "H13": {"pkg": ".", "run": "^TestVerifH13$", "streams": ["h13"], "toolchain": "go1.26.0", "timeout": (300, 600)},
    "H12": {"pkg": "./internal/allocation/", "run": "^TestVerifH12$", "streams": ["h12"], "toolchain": None, "timeout": (300, 600)},
    "H10": {"pkg": "./internal/client/", "run": "^TestVerifH10$", "streams": ["h10"], "toolchain": None, "timeout": (300, 600)},
    "H2": {"pkg": ".", "run": "^TestVerifH2$", "streams": ["h2"], "toolchain": "go1.26.0", "timeout": (900, 3000)},
    "H9": {"pkg": ".", "run": "^TestVerifH9$", "streams": ["h9"], "toolchain": "go1.26.0", "timeout": (300, 600)},
    "H8": {"pkg": ".", "run": "^TestVerifH8$", "streams": ["h8"], "toolchain": "go1.26.0", "timeout": (300, 900)},
    "H7": {"pkg": ".", "run": "^TestVerifH7$", "streams": ["h7"], "toolchain": "go1.26.0", "timeout": (300, 900)},
    "H3": {"pkg": "./internal/server/", "run": "^TestVerifH3$", "streams": ["h3"], "toolchain": "go1.26.0", "timeout": (300, 900)},
    "H4": {"pkg": ".", "run": "^TestVerifH4$", "streams": ["h4"], "toolchain": "go1.26.0", "timeout": (300, 1200)},
    "H5": {"pkg": ".", "run": "^TestVerifH5$", "streams": ["h5"], "toolchain": "go1.26.0", "timeout": (400, 1800)},
    "H6": {"pkg": ".", "run": "^TestVerifH6$", "streams": ["h6"], "toolchain": "go1.26.0", "timeout": (400, 2400)},
    "H11": {"pkg": ".", "run": "^TestVerifH11$", "streams": ["h11"], "toolchain": "go1.26.0", "timeout": (300, 600), "flags": ["-race"]},
    "H1": {"pkg": "./internal/proto/", "run": "^TestVerifH1$", "streams": ["h1"], "toolchain": None,
           "timeout": (600, 2400)},
}

H1_TB = LEAN_TB + [
    "hand-written model TurnModel/Model/{Wire,Framer}.lean tied to internal/proto by correspondence harness H1 "
    "(harness/proto/h1_test.go, real code in-process via go test -overlay) and the compiled Lean driver",
    "pion/stun TLV layer (Message.Add/Get) is abstract in the model: attribute codecs are functions on the raw value",
]

PROPS = {
    "C11": {
        "modules": ["TurnModel.Props.C11"],
        "harnesses": ["H1"],
        "view": ["cdenc", "cddec", "ischan", "lifetime", "connid", "channum", "reqtrans", "reqfam", "evenport",
                 "rsrvtoken", "dontfrag", "data", "xoraddr"],
        "alarms": ["cd-encode-shape", "cd-roundtrip", "cd-invalid-number-decoded", "cd-decode-accepts-bad",
                   "ischanneldata-disagrees", "attr-wrong-size-accepted", "attr-get-panics", "xoraddr-short-value-accepted",
                   "xoraddr-roundtrip", "attr-get-stateful"],
        "rule": "H1 drives the real ChannelData/attribute codecs: all 65536 channel numbers (encode+decode and as raw headers), "
                "payload lengths 0-64 + MTU and uint16 boundaries (thorough: ~all lengths), raw buffers for every header class x "
                "declared/actual length relation, every attribute x raw values of length 0-1 exhaustively, length 2 sampled "
                "(thorough: exhaustive), 3-64 random; every attribute is also decoded into a receiver that already holds another value (the model's decoders are functions "
                "of the message: attr-get-stateful); every op line is replayed by the Lean model and compared; "
                "distinct = distinct (op kind, outcome prefix) pairs",
        "trusted_base": H1_TB,
        "assumptions": ["XOR address decoding of wrong-sized values lives in the dependency pion/stun (finding F12)"],
    },
    "C10": {
        "modules": ["TurnModel.Props.C10", "TurnModel.Props.C10Bind"],
        "harnesses": ["H1", "H10"],
        "view": ["consume", "frames", "framesb", "bindconn"],
        "alarms": ["framer-roundtrip", "consume-no-progress", "framer-spins", "bindconn-segmentation", "harness-died"],
        "rule": "H1 drives consumeSingleTURNFrame on all 2^16 length fields x {ChannelData, STUN, garbage} (short buffers) and "
                "exact/long/one-short buffers for stratified lengths, and the real STUNConn over a scripted net.Conn on frame "
                "sequences x segmentations (whole, byte-at-a-time, every single cut, every pair of cuts for short streams, random "
                "cuts, truncated, followed by garbage); H10 drives the real TCPAllocation.BindConnection over a scripted data connection: success / success with "
                "attributes / error replies, alone or followed by application data, under every single cut, byte-at-a-time and random double cuts, plus truncated and "
                "non-STUN replies - result class and the bytes left for the application are compared with Model/BindConn.lean and with the unsplit run; "
                "the Lean framer replays every line; distinct = (op kind, outcome) pairs",
        "trusted_base": H1_TB + ["hand-written model TurnModel/Model/BindConn.lean tied to internal/client/tcp_alloc.go (BindConnection) by harness H10"],
        "assumptions": ["net.Conn.Read returns >0 bytes or an error (net.Conn contract)",
                        "stun.Message.Decode of the complete reply is pion/stun's (the model hands it the exact bytes)"],
    },
    "C09": {
        "modules": ["TurnModel.Props.C09"],
        "harnesses": ["H1", "H5", "H2", "H8"],
        "view": ["consume", "frames", "framesb", "cddec", "ischan", "cin", "cnet", "m:junk", "m:unk", "m:binding", "state", "trace"],
        "alarms": ["consume-no-progress", "framer-spins", "harness-died", "inbound-blocks", "h5-setup", "attr-get-panics", "intn-argument-wrong", "server-wedged", "client-spins"],
        "rule": "hostile streams through the real framer and codecs (all 2^16 declared lengths, uint16-overflow lengths 0xFFEC-0xFFFF, "
                "random garbage of every length 0-40; every stream also read with caller buffers of 1-1600 bytes, smaller than some frames); "
                "client side (H5): undecodable STUN, requests, foreign responses, garbage from the server and from elsewhere, ChannelData on unknown channels, "
                "a burst of 1100 datagrams with no reader and 14 ConnectionAttempt indications with nobody accepting - every HandleInbound call must return; "
                "the client's read loop over a stream transport is fed ChannelData and STUN frames of every extreme size (0 ... 0xFFFF, larger than its read buffer), each followed by a Binding liveness probe "
                "(inbound-blocks otherwise); server side (H2): the full generated histories, in which well-formed STUN messages of every (method, class) pair without a handler, "
                "unknown attributes, non-STUN bytes and oversize frames are mixed with ordinary traffic on packet and stream listeners - the server must stay up and silent on them; "
                "attribute decoders are called on exact-capacity messages with every wrong size (attr-get-panics); the bundled port-range generator is driven over every boundary range "
                "(H8: an Intn argument <= 0 would panic the server inside an ordinary Allocate); "
                "a crashed or hung harness is reported with the last flushed operation",
        "trusted_base": H1_TB,
        "assumptions": ["PARTIAL: panics inside pion/stun's decoder and the Go runtime cannot be exhibited by the Lean model; "
                        "the hostile streams are the only evidence for those"],
    },
}

H2_TB = LEAN_TB + [
    "hand-written model TurnModel/Model/Server.lean (M4) tied to the real turn.Server by correspondence harness H2 "
    "(harness/turn/h2_*_test.go: real server on an in-memory network under Go 1.26 testing/synctest virtual time, injected with "
    "go test -overlay) and the compiled Lean driver replaying every operation; state listings compared after every operation",
    "credentials are abstract facts (Cred) in M4; pion/stun message encoding and HMAC are exercised for real by the harness",
    "atomicity: one request / relay event / timer batch per model step (UDP listener = one read loop; tables guarded by locks, C18)",
]
H2_RULE = ("H2 generates multi-client histories (1-3 active 5-tuples on a packet and optionally a stream listener, users alice/bob/unknown, "
           "5 peers incl. shared IPs, vetoed peers and IPv6, all credential defects of C03, random timeout/lifetime/MTU configurations, "
           "time steps on both sides of every expiry horizon, TCP-relay mode histories) against the real server; every operation and a "
           "state listing after it are replayed through the Lean model; only the property's view (op kinds / output kinds) is compared; "
           "before the histories one directed scenario runs the real server on real loopback UDP sockets (two interleaved raw clients sharing channel number and peer, "
           "one peer): delivery to the owner only, relayed source address, expiry of one allocation while the other client is the last sender, Refresh(0) (real-udp-* monitors); "
           "distinct = distinct (op kind, outcome kinds) pairs observed in the view")
H2_ASSUME = ["probes are never placed exactly at an expiry instant except via virtual-time sleeps that land on it (timer fires first)",
             "simnet stands in for the OS socket layer; relay address generator and permission handler are harness-controlled inputs"]


H2_REAL = ["real-udp-misdelivery", "real-udp-wrong-source", "real-udp-lost", "real-udp-lifecycle", "real-udp-setup", "h2-setup"]


def h2prop(modules, view, outs, alarms, extra_assume=()):
    return {"modules": modules, "harnesses": ["H2"], "view": view, "outs": outs, "alarms": alarms + H2_REAL, "rule": H2_RULE,
            "trusted_base": H2_TB, "assumptions": H2_ASSUME + list(extra_assume)}


PROPS.update({
    "C01": h2prop(["TurnModel.Props.C01"], ["m:send", "m:cdata", "m:perm", "m:bind", "m:connect", "state"],
                  ["topeer", "dial"], []),
    "C02": dict(h2prop(["TurnModel.Props.C02"], ["pdata", "pconn", "state"], ["dind", "cdat", "catt", "cclosed"], ["expired-entry-still-authorises", "h12-setup"]),
                harnesses=["H2", "H12"]),
    "C03": dict(h2prop(["TurnModel.Props.C03", "TurnModel.Props.C03Nonce"],
                       ["m:alloc", "m:refresh", "m:perm", "m:bind", "m:connect", "m:cbind", "state", "snv", "lnv"],
                       ["resp"], ["nonce-window", "nonce-foreign-accepted", "nonce-key-not-random", "unsigned-attribute-honoured"],
                       ["the MAC of the nonce managers is a parameter of the nonce theorems; harness H3 supplies the real HMAC of the decoded timestamp as an oracle entry per operation",
                        "MESSAGE-INTEGRITY verification itself is pion/stun's (exercised for real, modelled as the fact macOK)"]),
                harnesses=["H2", "H3"]),
    "C04": dict(h2prop(["TurnModel.Props.C04", "TurnModel.Props.C04NI", "TurnModel.Props.C04Key"], ["m:*", "pdata", "pconn", "cclose", "state", "fp", "aeq", "pkey"], None,
                       ["response-wrong-source", "shared-relay-port-udp4", "shared-relay-port-tcp4"],
                       ["the model's relayBusy (a relayed address held by a live allocation cannot be handed out again) is the bundled generators' duty: H8 opens real loopback "
                        "sockets through them; for TCP relay listeners it does not hold (finding F18)"]),
                harnesses=["H2", "H8"]),
    "C05": h2prop(["TurnModel.Props.C05"], ["m:send", "m:cdata", "pdata"], ["topeer", "dind", "cdat"], ["chandata-padding"]),
    "C06": dict(h2prop(["TurnModel.Props.C06", "TurnModel.Props.C06Timer", "TurnModel.Props.C06Reuse"], ["m:alloc", "m:refresh", "adv", "state", "m:send", "pdata"], ["resp", "topeer", "dind", "cdat", "ev"],
                       ["allocation-vanished-after-success", "refresh-success-then-expired", "data-race", "h11-setup"]), harnesses=["H2", "H11"]),
    "C07": dict(h2prop(["TurnModel.Props.C07", "TurnModel.Props.C07Trace", "TurnModel.Props.C07Timer"], ["m:perm", "m:bind", "adv", "m:send", "m:cdata", "pdata", "state"],
                  ["resp", "topeer", "dind", "cdat"], ["entry-refreshed-then-expired", "expired-entry-still-authorises", "success-for-ended-allocation", "h12-setup"]), harnesses=["H2", "H12"]),
    "C08": h2prop(["TurnModel.Props.C08"], ["m:bind", "m:cdata", "pdata", "state"], ["resp", "cdat", "topeer"],
                  ["chandata-invalid-number-emitted"]),
    "C19": dict(h2prop(["TurnModel.Props.C19"], ["m:*"], ["resp"], ["response-wrong-source", "shared-relay-port-udp4", "shared-relay-port-tcp4"],
                       ["allocate_truthful's relay uniqueness rests on the generator refusing a port in use: H8 checks it on real loopback sockets; for TCP relay listeners "
                        "it does not hold (finding F18)"]),
                harnesses=["H2", "H8"]),
    "C15": dict(h2prop(["TurnModel.Props.C15", "TurnModel.Props.C15Attach"], ["*"], ["ev", "net", "dclosed", "cclosed"],
                  ["allocation-count-mismatch", "sockets-left-after-close", "server-close-leaves-control-connections", "even-port-probe-left-open", "bind-response-lost-leaks-peer-connection",
                   "connection-attached-to-dead-allocation", "state-attached-to-dead-allocation", "bind-refused-but-connection-kept", "success-for-ended-allocation", "h12-setup"],
                  ["PARTIAL: goroutines and timers are ghost state in the model (one timer per entity, one reader goroutine per allocation); "
                   "their real existence is observed only through the simnet open/close log and the synctest bubble draining at the end of every history"]),
                harnesses=["H2", "H12"]),
    "C16": dict(h2prop(["TurnModel.Props.C16", "TurnModel.Props.C16Timer"],
                       ["m:connect", "m:cbind", "pconn", "pc2p", "pp2c", "pclosec", "pclosep", "adv", "cclose", "rerr", "close", "state"],
                       ["resp", "dial", "catt", "cclosed", "p2p", "p2c", "dclosed"], ["manager-blocked-by-dial", "h9-setup", "server-wedged", "bind-response-lost-leaks-peer-connection", "bind-pipelined-bytes-lost",
                        "bound-connection-closed-by-bind-timer", "connection-attached-to-dead-allocation", "bind-rule-broken", "bind-refused-but-connection-kept", "h12-setup"],
                       ["PARTIAL: io.Copy / TCP byte piping is the runtime's; byte integrity of the pipe is observed by the harness, not proved about Go",
                        "connection ids are canonicalised to first-occurrence indices (the real ids are random)"]),
                env={"VERIF_H2_MODE": "tcp"}, harnesses=["H2", "H9", "H12"]),
})

PROPS["C18"] = {
    "modules": ["TurnModel.Props.C18"], "gen": True,
    "harnesses": ["H9", "H4", "H11", "H5", "H12"], "view": ["slowcb", "trace"], "outs": None,
    "alarms": ["data-path-blocked-by-callback", "bound-connection-closed-by-bind-timer", "state-attached-to-dead-allocation", "h12-setup", "liveness-lost", "allocation-left", "txn-completion-race", "harness-died", "data-race", "concurrent-writers-mixed", "h11-setup", "manager-blocked-by-dial", "h9-setup", "server-wedged", "allocation-vanished-after-success", "concurrent-first-write-closes-allocation", "accept-blocked-after-close", "accept-deadline-not-sticky", "inbound-blocks", "h5-setup", "half-initialised-allocation-published", "lock-held-on-return"],
    "rule": "regenerated obligations: xlate re-emits the lock skeleton of every function/closure touching a sync mutex (63 units, 26 lock ids), the call/guard "
            "skeleton of the request handlers and the AddPermission ordering facts from /repo's working tree on every run; the kernel re-checks balanced/guarded "
            "by decide; the translator also derives, over the static call graph, which mutexes each function may take (callee summaries) and the kernel re-checks that the resulting lock-order graph (mutex held -> mutex taken, over every path, through calls) is acyclic (lock_order_acyclic). Failing-input search / supporting run: H9 makes each lifecycle callback slow (1 s / 4 s virtual) and tears the allocation down during it by "
            "each cause (expiry, Refresh 0, relay error, server close): 56 scenarios with liveness probe; H4 (real time) lets the response arrive / the client be closed while a "
            "retransmission's socket write is in progress and then fails: the transaction must complete exactly once (no goroutine left in WriteResult, no send on a closed channel); "
            "distinct = (callback, cause, delay) triples",
    "trusted_base": LEAN_TB + ["translator /verif/xlate (go/packages + go/types, ~700 lines): that the emitted skeleton has the lock/guard/call structure of the Go function; "
                               "it refuses goto/labels and resolves mutexes by declared field, not by name",
                               "soundness theorem of the checker (balanced_sound, chk_no_fault) is proved once for all programs"],
    "assumptions": ["PARTIAL: data-race freedom in the sense of the Go memory model and scheduler-dependent deadlock outside the modelled mutexes are outside any Lean model; "
                    "the guarded/balanced skeleton theorems are the provable core, H9 and the race detector are supporting evidence only",
                    "lock order: mutexes are identified per struct field (all instances together), calls through interfaces, function values and goroutine starts are not followed "
                    "(callee summaries cover statically resolved module functions only)"],
}

PROPS["C20"] = {
    "modules": ["TurnModel.Props.C20"], "gen": True,
    "harnesses": ["H8"], "view": ["pr"], "outs": None,
    "alarms": ["generator-rewrites-socket-address", "intn-argument-wrong", "generator-leaks-socket-on-error", "advertised-ip-wrong", "advertised-port-not-bound", "port-out-of-range",
               "requested-port-not-honoured", "static-generator-address", "none-generator-address", "shared-relay-port-udp4", "shared-relay-port-tcp4"],
    "rule": "regenerated obligation: the port expression of AllocatePacketConn and AllocateListener is re-translated from the Go AST to BitVec 16 on every run and port_in_range is "
            "re-proved for all (min,max,k). H8 drives the real RelayAddressGeneratorPortRange (UDP and TCP) with a scripted Rand on a fake transport.Net (bind succeeds iff port free): all "
            "(min,max) on the boundaries {1,2,1023,1024,32767,32768,65534,65535}^2 x Intn extremes, MaxRetries {1,3,10} x 0..retries+1 ports in use, requested ports, random ranges with "
            "fill/drain; the M9 model replays every case; plus the Static/None generators' advertised address and real loopback sockets for the no-shared-port clause; "
            "distinct = (op kind, outcome) pairs",
    "trusted_base": LEAN_TB + ["translator /verif/xlate for the port expression (uint16 -> BitVec 16; refuses anything but +, -, conversions, MinPort/MaxPort, Intn)",
                               "hand-written loop model TurnModel/Model/PortRange.lean tied by correspondence harness H8"],
    "assumptions": ["no_shared_port assumes the network refuses to bind a port in use; the bundled generators open TCP listeners with SO_REUSEPORT, for which this is false (finding F18)"],
}

PROPS["C17"] = {
    "modules": ["TurnModel.Props.C17"],
    "harnesses": ["H7"], "view": ["lt"], "outs": None,
    "alarms": ["ltcred-window", "ltcred-key", "ltcred-userid", "ltcred-other-secret", "ltcred-forgery", "ltcred-e2e"],
    "rule": "H7 runs both generators and both handlers under virtual time: 3 secrets x 6 durations (incl. negative, zero, 1.5 s, 90 min) x validation at every second in "
            "[expiry-3 s, expiry+3 s], every single-character insertion/substitution/deletion of the username from a 17-character alphabet (digits, ':', signs, space, '_', letters), every "
            "single-bit mutation of the password checked with the real stun MESSAGE-INTEGRITY, another secret's handler, and an end-to-end Allocate through a real server; every handler "
            "decision is replayed through the Lean model (strconv.Atoi / strings.Split glue included); distinct = (handler, outcome) pairs",
    "trusted_base": LEAN_TB + ["hand-written model TurnModel/Model/LtCred.lean tied to lt_cred.go by correspondence harness H7 (real handlers under testing/synctest)",
                               "HMAC-SHA1, base64 and MD5 are parameters of the theorems (forgery = collision), exercised for real by the harness"],
    "assumptions": ["usernames in the mutation stream are ASCII"],
}

PROPS["C12"] = {
    "modules": ["TurnModel.Props.C12"], "gen": True,
    "harnesses": ["H4"], "view": ["tstart", "tresp", "tadv", "tclose", "tsize"], "outs": None,
    "alarms": ["txn-foreign-response", "txn-completion-race", "harness-died"],
    "rule": "H4 drives the real turn.Client (PerformTransaction / Listen / Close) on a scripted in-memory socket under virtual time: for RTO in {1,100,200,800,1600,3000} ms a response after "
            "each of the 7 transmissions at 1 ms after it, 1 ms before and exactly at the next timer (+ duplicate), no response at all, a write error on each transmission 0..6 followed by a late "
            "response and a fresh transaction, and random histories with 1-6 concurrent transactions, interleaved / foreign / duplicate responses, Close at any point; every datagram's virtual "
            "timestamp, every completion (kind, time) and the table size are replayed through the M5 model; distinct = (op kind, outcome) pairs",
    "trusted_base": LEAN_TB + ["hand-written model TurnModel/Model/Txn.lean tied to client.go / internal/client/transaction.go by correspondence harness H4 (testing/synctest virtual time)",
                               "atomicity of table operations: Find/Delete/CloseAndDeleteAll run under mutexTrMap (C18 all_functions_balanced covers those functions)"],
    "assumptions": ["network loss / delay / duplication / reordering is represented as the instant (or absence) of a response, which is all the client can observe",
                    "fairness: the retransmission timer of a pending transaction eventually fires (Go runtime)"],
}

PROPS["C13"] = {
    "modules": ["TurnModel.Props.C13", "TurnModel.Props.C13Nums", "TurnModel.Props.C13Locks", "TurnModel.Props.C13Perm"], "gen": True,
    "harnesses": ["H5", "H11", "H10"], "view": ["cwrite", "cin", "cread", "cadv", "cclose", "cnet"], "outs": None,
    "alarms": ["granted-permission-forgotten", "write-after-close-emits", "dial-after-close-emits", "inbound-blocks", "h5-setup", "harness-died", "read-deadline-not-sticky", "data-race", "concurrent-writers-mixed", "h11-setup", "channel-number-reused", "concurrent-first-write-closes-allocation", "accept-deadline-not-sticky", "accept-blocked-after-close", "stream-other-record", "permission-address-aliased"],
    "rule": "H5 drives the real turn.Client + UDPConn (Allocate, WriteTo, ReadFrom, SetReadDeadline, Close, HandleInbound, the 30 s bindings timer) against a scripted TURN server on an "
            "in-memory socket under virtual time: every write gets a reaction script for CreatePermission and ChannelBind drawn from {ok, 400, 403, 438, 438x2, 438x3, silence, 438+403, 508}; "
            "inbound Data indications, ChannelData (known/unknown channels, payloads starting with the STUN cookie), requests, undecodable STUN, foreign responses, garbage from the server and "
            "from elsewhere (direct and through the socket); reads with nothing queued; time steps around 30 s / 300 s; a burst of 1100 datagrams with no reader; 14 ConnectionAttempt "
            "indications with nobody accepting; 300 (thorough 16500) distinct peers. The wire log at the scripted server and every call result are replayed through the M6 model; "
            "distinct = (op kind, outcome) pairs",
    "trusted_base": LEAN_TB + ["hand-written model TurnModel/Model/ClientConn.lean tied to internal/client/{udp_conn,binding,permission}.go and client.go by correspondence harness H5",
                               "atomic steps: perm.mutex / muBind / atomics serialise the modelled decisions (C18 balanced skeletons cover these functions)"],
    "assumptions": ["PARTIAL: concurrent writers are interleavings of atomic steps; the Go memory model is not modelled",
                    "ReadFrom after Close may return either a queued datagram or the closed error (Go select); not compared"],
}

PROPS["C14"] = {
    "modules": ["TurnModel.Props.C14", "TurnModel.Props.C14Data", "TurnModel.Props.C14Perm"], "gen": True,
    "harnesses": ["H6", "H13"], "view": ["k6", "kadv", "kwr", "kpw", "kclose"], "outs": None,
    "alarms": ["probe-lost", "close-leaves-allocation", "close-ignored-438", "h6-setup", "harness-died", "application-permission-not-refreshed", "tcp-permission-interval-ignored",
               "double-close-deallocates-again", "connect-stale-nonce-not-retried", "h13-setup", "refused-peer-written"],
    "rule": "H6 runs the real turn.Client (Allocate, UDPConn with its three periodic timers, WriteTo, ReadFrom, Close) against the real turn.Server on the in-memory network "
            "under virtual time for 5 min - 2 h per history (thorough: up to 6.7 h; directed: library defaults idle 75 min, busy 65 min, worst admissible loss 130 min, Close with a stale "
            "and with a fresh nonce). Inputs per history: server lifetime / permission / channel timeouts and client refresh intervals on both sides of the theorem's Compatible "
            "predicate, 0-5 (thorough 50) peers, and for every transaction its fate (k lost requests, then m processed requests whose responses are lost, a+b <= 6, optionally a "
            "duplicate). Compared with the M7 model, to the millisecond: the instant and outcome of every Refresh / CreatePermission / ChannelBind the server answers, the delivery "
            "of every probe datagram in both directions, Close's Refresh(0) and AllocationCount after it. Independently of the model the harness raises probe-lost / "
            "close-leaves-allocation when a Compatible configuration loses a probe or keeps the allocation after Close. distinct = (op kind, outcome) pairs",
    "trusted_base": LEAN_TB + ["hand-written model TurnModel/Model/KeepAlive.lean tied to internal/client/{allocation,periodic_timer,udp_conn,transaction}.go, client.go and "
                               "internal/server + internal/allocation by correspondence harness H6 (zero-delay simulated network, testing/synctest clock)",
                               "steps the model marks undetermined (same-millisecond race between a 438 and another request being built, an action exactly on an expiry "
                               "instant, Close with a transaction in flight, after the allocation died) are replayed but not compared; their count is in the evidence"],
    "assumptions": ["PARTIAL: real timer latency, goroutine scheduling delays and network delay are outside the model (zero-delay network, exact timers)",
                    "alloc_never_dies, bindings_never_expire, data_keeps_flowing and nothing_expires (allocation, every binding, every permission) are proved on the "
                    "composed model for any run length; in the model, as in the client, every peer written to gets a permission and a channel binding",
                    "known finding F13: Close ignores a 438 to its Refresh(0)"],
}

PROOF_NOTE = ("Trusted: Lean 4.33.0 kernel, axioms propext/Classical.choice/Quot.sound only (audited per theorem on every run), "
              "the hand-written model's tie to the code = correspondence harness + compiled driver (agreement observed on generated cases only). ")

MANIFEST_TEXT = {
    "C11": {
        "text": "Round-trip, shape and decode-iff theorems for ChannelData over all numbers and all payloads < 65536 bytes, and get∘add / wrong-size "
                "theorems for every TURN attribute codec, and the STUN/ChannelData demultiplexing rule (chanValid_iff_first_byte, stun_never_channeldata), proved in Lean over the model; the model is tied to internal/proto by replaying ~220k real "
                "codec operations (all 65536 channel numbers) through the Lean definitions on every run.",
        "design_ref": "DESIGN.md §6 C11", "technique": "Lean 4 theorems (round-trip / decode-iff) + differential correspondence with the real codecs",
        "note": PROOF_NOTE + "pion/stun's TLV layer is abstract; XOR address wrong-size rejection is proved only partially (known finding F12 in the dependency).",
    },
    "C10": {
        "text": "framer_roundtrip: for all frame sequences and all segmentations the model of STUNConn.ReadFrom returns exactly the frames, in order, one per call, "
                "promptly; readloop_exact / readloop_segmentation_independent / readloop_truncated: the whole stream read loop yields exactly the frames and then EOF under every two "
                "segmentations of the same stream, and a stream cut inside a frame never yields the partial frame; read_consumes and garbage_is_error for every input; bindconn_split_independent / bindconn_exact: the client's reading of the ConnectionBind reply "
                "(exactly the header, exactly the announced body, the rest left for the application) depends only on the concatenation of the reads. Tied to the real framer by "
                "replaying every consume/frames operation of H1 (all 2^16 length fields, every single/double cut of short streams) and to TCPAllocation.BindConnection by H10.",
        "design_ref": "DESIGN.md §6 C10", "technique": "Lean 4 induction over frame lists and chunk lists + differential correspondence with STUNConn",
        "note": PROOF_NOTE + "net.Conn contract assumed for Read.",
    },
    "C09": {
        "text": "consume_progress and readloop_terminates (the stream read loop ends within bytes+1 iterations on every finite input) proved over the framer model; "
                "hostile-stream correspondence with crash/hang detection on the real code. PARTIAL: panics inside pion/stun and the Go runtime are outside the model.",
        "design_ref": "DESIGN.md §6 C09", "technique": "Lean 4 termination/progress theorems + hostile-input correspondence with watchdog",
        "note": PROOF_NOTE + "Partial: dependency/runtime panics are only exercised, not proved absent.",
    },
}


def _mt(text, ref, technique, extra=""):
    return {"text": text, "design_ref": ref, "technique": technique, "note": PROOF_NOTE + extra}


MANIFEST_TEXT.update({
    "C01": _mt("send_gated / chandata_gated / only_these_emit and the policy+family invariant over every reachable state of the server model, "
               "refused_never_receives, dial_granted; tied by replaying every H2 history through the model (relayed datagrams, dials and state listings compared).",
               "DESIGN.md §6 C01", "Lean 4 invariants by induction over operation histories + differential correspondence under virtual time"),
    "C02": _mt("udp_gated (forward iff live binding for the exact address, else live permission for the IP; state unchanged; owner only), tcp_gated, relay_owner_unique.",
               "DESIGN.md §6 C02", "Lean 4 decision-logic theorems over reachable states + differential correspondence"),
    "C03": _mt("auth_ok_iff and the 401/438/400 table, unauth_no_effect (state identical, no success) for all six methods, wrong_user_no_effect, connbind_owner_only; "
               "nonce_short_accept_iff for every truncation length and every MAC (accepted iff stamped 0..60 whole minutes ago), challenge_accepted, nonce_accept_only_minted, "
               "nonce_long_accept_iff / nonce_long_only_minted; credential defects generated with the real stun library and both nonce managers driven under virtual time (H3) are replayed through the model.",
               "DESIGN.md §6 C03", "Lean 4 decision table + frame theorems + differential correspondence",
               "Cryptography is a parameter: the abstract credential facts are what authenticateRequest establishes."),
    "C04": _mt("fpAddr_injective / equal_iff (the 5-tuple key of five_tuple.go is injective on addresses up to the two spellings of an IPv4 address; ipEqual_iff / addrEqual_iff_same_key (net.IP.Equal, hence ipnet.AddrEqual, decides the same relation); tied by replaying FiveTuple.Equal, ipnet.AddrEqual and the permission key ipnet.FingerprintAddr on ~11000 address pairs), unique_key / unique_relay (Nodup invariants over all reachable states), frame and others_cannot_touch (any history of other 5-tuples leaves an allocation identical), "
               "replies_to_sender, connbind_frame, control_close_local; noninterference / noninterference_two_runs (Goguen-Meseguer purge form, any history length): deleting every request "
               "of every other 5-tuple from a history changes neither the trace client k observes (responses, relayed data out, data indications / ChannelData in) nor k's allocation, from any "
               "two states that agree on k's view; k's own Allocate/Connect (shared ports, tokens, connection ids) are outside that theorem.",
               "DESIGN.md §6 C04", "Lean 4 list-level invariants + frame lemma + purge-form non-interference by induction + differential correspondence"),
    "C05": _mt("payload identity both ways for all lengths (composition of M4 gating with the ChannelData/XOR codecs of M1 and the framer of M2), oversize dropped, "
               "inbound MTU rule, at-most-once, truthful attribution, padding shape.",
               "DESIGN.md §6 C05", "Lean 4 composition of codec round-trip and relay theorems + differential correspondence with boundary payload sizes"),
    "C06": _mt("C06Reuse: never_killed_any_schedule (left-over goroutines of a deleted allocation never remove a newer one on the same 5-tuple; by-object deletion regenerated). C06Timer: refresh_vs_expiry / never_broken_any_schedule (a Refresh racing the lifetime timer, all interleavings and any sequence; proviso regenerated from the source). granted_lifetime, reported_exact, allocate_success / refresh_success (expiry = now + granted; Refresh 0 deletes in the same step), alive_iff on every time advance, dead_is_silent.",
               "DESIGN.md §6 C06", "Lean 4 theorems over symbolic time + differential correspondence under virtual time"),
    "C07": _mt("C07Timer: refresh_vs_expiry / never_broken_any_schedule (refresh of a permission/binding racing its expiry callback at the list's lock; proviso regenerated). entries_bounded invariant, create_permission_installs / channel_bind_installs (exact new expiries; ChannelBind refreshes the permission with the permission timeout), "
               "change_monotone (nothing but time shortens an entry), expires_exactly, rebind_after_expiry; entry_lives (trace form, any history: a permission / binding with expiry >= e is still held "
               "with expiry >= e after ANY sequence of requests of any client, relay events and time steps while the clock is below e and the allocation has not ended), held_perm_relays.",
               "DESIGN.md §6 C07", "Lean 4 invariants + exact-expiry theorems + differential correspondence around every horizon"),
    "C08": _mt("chan_bijection invariant (numbers distinct, peers distinct, range) over all reachable states, conflict_400, conflict_iff, rejected_changes_nothing, rebind_no_conflict, emitted_numbers_valid.",
               "DESIGN.md §6 C08", "Lean 4 invariant by induction + differential correspondence"),
    "C12": _mt("exactly_once over EVERY event history (conservation law: completions + pending = begun), fires_terminate (never hangs: gone after at most 7 - nRtx timer firings for every clock, interval and failing write) with fire_interval_bounded, response_matches_by_id, response_other_id_untouched, close_completes_all, "
               "fire_recurrence / timer_rearmed / rtx_schedule (for every RTO: 7 transmissions at the back-off offsets, failure at the 7th firing, table empty), intervals_closed, regenerated constants.",
               "DESIGN.md §6 C12", "Lean 4 conservation law by induction over event histories + symbolic timetable + differential correspondence under virtual time"),
    "C13": _mt("C13Perm: never_forgotten / never_forgotten_any_schedule (concurrent writers at the permission map: a granted permission keeps its entry; proviso regenerated). Inv preserved over every history (permitted => a CreatePermission success covered the IP; ok-state binding => its ChannelBind was confirmed), data_after_permission "
               "(for ALL server reaction scripts: data goes to the named peer with the given payload only after permission; ChannelData only on a confirmed binding of exactly that peer, "
               "Send indication otherwise; nothing when the permission fails), only_write_sends_data, channel_numbers_any_history (over ANY history, any number of peers: never more bindings than channel numbers, numbers pairwise distinct, "
               "in range, stable per peer, one binding per peer - NumInv preserved by every step), queue_fifo, chandata_inbound, closed_write_fails. PARTIAL: Go memory model.",
               "DESIGN.md §6 C13", "Lean 4 invariant over a state machine with server reactions as universally quantified inputs + differential correspondence with a scripted server",
               "Partial: concurrent writers modelled as interleavings of atomic steps."),
    "C15": _mt("C15Attach: nothing_left / never_leaked_any_schedule (attach vs. teardown: nothing stays attached to an ended allocation; closed-mark check regenerated). ledger_matches_live (no entity listed twice; count = live allocations), events_paired (over ANY history, created - deleted = 1 iff live: every prefix balances), "
               "step_events_exact, teardown_complete for control-connection close / relay failure / server close, expiry_teardown, closed_server_empty; "
               "tied by comparing the real EventHandler callbacks and the simulated network's socket open/close log with the model's derived events after every operation. "
               "PARTIAL: goroutines/timers are ghost state.",
               "DESIGN.md §6 C15", "Lean 4 conservation law by induction over histories + differential correspondence of lifecycle events and socket ledger",
               "Partial: real goroutines/timers are observed via synctest only."),
    "C16": _mt("unbound_within_deadline invariant, deadline_closes, bind_success_inv (owner only, stream only, not bound before), bind_once, bind_reject_harmless, dupe_446, "
               "connect_fresh_id, peerconn_fresh_id, conn_id_unique (global invariant: one id names one connection per listener), pipe_identity, tcp_allocation_over_stream_only, "
               "bind_vs_deadline / bind_xor_deadline (C16Timer: over ALL interleavings of the bind timer and a ConnectionBind at the manager's mutex a granted bind is never undone; the proviso "
               "'the callback decides under the lock' is a fact regenerated from the source); tied by TCP-relay histories (Connect / inbound connections / ConnectionBind right and wrong / pipes / closes / 29-31 s steps) replayed through the model. "
               "PARTIAL: io.Copy and TCP are the runtime's.",
               "DESIGN.md §6 C16", "Lean 4 invariants + decision theorems + differential correspondence on TCP-relay histories",
               "Partial: byte piping by io.Copy is observed, not proved."),
    "C17": _mt("atoi_fmt (the decimal text written by the generators is read back as the same number, all of int64), ltcred_window (accepted iff now <= expiry, any duration sign), "
               "ltcred_key (returned key = long-term key of the generated password), ltcred_bad_timestamp, ltcred_expired, ltcred_forgery (honouring other credentials requires an MD5/HMAC collision), ltcred_rest.",
               "DESIGN.md §6 C17", "Lean 4 theorems with the MAC as a parameter + differential correspondence under virtual time with exhaustive single-character mutations"),
    "C18": _mt("lock_checker_sound (for ALL programs: accepted skeleton => no lock held at any exit, no release of an unheld lock), all_functions_balanced over the skeletons regenerated "
               "from the current source, guarded_accesses_locked, lock_order_acyclic (no cycle in the regenerated mutex-held -> mutex-taken graph, through statically resolved calls), handlers_guarded (every state-changing call dominated by auth/owner/grant/family/valid guards), addperm_vs_close over all interleavings. "
               "PARTIAL: Go-memory-model data races and lock order through dynamic calls are outside the model.",
               "DESIGN.md §6 C18", "Lean 4 verified checker (reflection) over skeletons regenerated by a Go translator + slow-callback teardown scenarios",
               "Partial: see assumptions; the translator is trusted to preserve lock/guard/call structure."),
    "C19": _mt("resp_tid_dst on every path, binding_truthful, allocate_truthful (with relay uniqueness), retransmit_idempotent, mismatch_437.",
               "DESIGN.md §6 C19", "Lean 4 theorems over all request paths + differential correspondence of every response"),
    "C20": _mt("port_in_range over the REGENERATED uint16 expressions of both generator methods for all MinPort<=MaxPort (incl. 65535 and single-port ranges) and all Intn results, "
               "model_matches_source, alloc_ok (bound port is free; requested port passed through), alloc_fail_clean (exactly MaxRetries attempts, nothing bound), no_shared_port over all allocate/close histories.",
               "DESIGN.md §6 C20", "Lean 4 BitVec theorems over an expression regenerated from the Go AST + loop model with differential correspondence"),
})

# interleaving theorems over hand-written abstract actors, tied to the source by syntactic facts (Gen/Facts.lean)
_FACTS_TB = ("interleaving theorems (%s): the actors (timer callback, request handler, teardown, writers) are hand-written abstractions of goroutines that meet at one mutex; "
             "their proviso is a Boolean fact that /verif/xlate reads off the Go AST on every run (statement order inside the named functions) - the translator is trusted for that reading, "
             "the Go scheduler, sync.Mutex and time.Timer (atomicity of Stop/Reset verdicts) are assumed, not modelled")
for _pid, _mods in (("C06", "C06Timer, C06Reuse"), ("C07", "C07Timer"), ("C13", "C13Perm"), ("C15", "C15Attach"), ("C16", "C16Timer")):
    PROPS[_pid] = dict(PROPS[_pid])
    PROPS[_pid]["trusted_base"] = list(PROPS[_pid]["trusted_base"]) + [_FACTS_TB % _mods]
    PROPS[_pid]["gen"] = True

# properties whose check is not built yet (kept current; emptied as checks land)
MANIFEST_TEXT["C14"] = _mt(
    "alloc_never_dies, bindings_never_expire, nothing_expires (allocation, every binding and every permission unexpired after ANY run), data_keeps_flowing (a probe written to any peer is relayed and a probe from any peer is delivered, after ANY run): on the composed model of the client's refresh drivers (periodic timers, <= 3 attempts, retransmission clock of M5) and the server's expiry timers and "
    "one-hour nonce window, for every Compatible configuration, every loss / response-loss / duplication pattern leaving one answered transmission per transaction, any number "
    "of peers and ANY sequence of time steps and probes, the allocation is live at the end of every prefix (induction over events, no bound on duration). "
    "refresh_keeps_alive + driver_gaps + driver_keeps_alive: any entry whose driver period plus twice its handler time is below the server timeout survives any number of "
    "periods (permissions, bindings); defaults_compatible + keepalive_consts_regenerated tie the inequality to today's constants; retry_not_stale / srv_stale: 438 recovery; "
    "close_deletes_partial, and close_with_stale_nonce_keeps_allocation = the machine-checked counterexample to the full Close statement (finding F13). The model is tied to the "
    "real client and server by H6 to the millisecond over hours of virtual time.",
    "DESIGN.md §6 C14", "Lean 4 invariant proof over an event-queue model (any run length) + exact-timeline differential correspondence under virtual time",
    "Partial: zero-delay network and exact timers; permission/binding liveness on the composed model by correspondence only; F13 known.")

NOT_YET = {p: "check under construction in this build phase; no claim is made until its theorems and correspondence run exist"
           for p in ["C%02d" % i for i in range(1, 21)]}
