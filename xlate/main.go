// xlate: regenerates lean/TurnModel/Gen/*.lean from /repo's current working tree.
//
//	Gen/Locks.lean   lock skeleton of every function / closure that touches a sync mutex
//	Gen/Eff.lean     call/guard skeleton of the request handlers of internal/server
//	Gen/Consts.lean  every integer / duration constant of the five packages, the defaults NewServer
//	                 applies, and a few designated thresholds read off the AST
//
// The translator refuses what it does not understand (goto, labels, lock calls through function
// values) instead of guessing: it then exits non-zero and the check reports a broken obligation.
package main

import (
	"flag"
	"fmt"
	"go/ast"
	"go/constant"
	"go/printer"
	"go/token"
	"go/types"
	"os"
	"path/filepath"
	"sort"
	"strings"

	"golang.org/x/tools/go/packages"
)

type unit struct {
	name string
	body string
	uses bool // touches a lock
}

type tr struct {
	pkg         *packages.Package
	locks       map[string]int
	units       []*unit
	curName     string
	nLit        int
	inLit       int            // >0 while translating an inlined closure: return => cont
	calls       map[string]int // effect/guard-relevant callee -> id
	effects     bool
	lastAssign  map[string]string
	closures    []string // effects mode: names of closure units passed as call arguments
	inGo        bool
	fnLockSites []lockSite                 // Lock/RLock call sites of the current unit
	assumeHeld  string                     // lock key the current unit is documented to be called with
	acqAll      map[string]map[string]bool // lock mode: function -> mutexes it may take, directly or through static callees
	fnID        map[string]int             // lock mode: id of every function with a non-empty acqAll
}

// staticCallee: "pkgname.Recv.Func" / "pkgname.Func" of a statically resolved call into this module ("" otherwise:
// interface methods, function values and callbacks are not followed)
func staticCallee(info *types.Info, call *ast.CallExpr) string {
	var obj types.Object
	switch f := call.Fun.(type) {
	case *ast.Ident:
		obj = info.Uses[f]
	case *ast.SelectorExpr:
		if s := info.Selections[f]; s != nil {
			if s.Kind() != types.MethodVal {
				return ""
			}
			obj = s.Obj()
		} else {
			obj = info.Uses[f.Sel]
		}
	}
	fn, ok := obj.(*types.Func)
	if !ok || fn.Pkg() == nil || !strings.HasPrefix(fn.Pkg().Path(), "github.com/pion/turn") {
		return ""
	}
	name := fn.Pkg().Name() + "." + fn.Name()
	if sig, ok := fn.Type().(*types.Signature); ok && sig.Recv() != nil {
		rt := sig.Recv().Type()
		if _, isIface := rt.Underlying().(*types.Interface); isIface {
			return ""
		}
		r := rt.String()
		r = r[strings.LastIndex(r, ".")+1:]
		name = fn.Pkg().Name() + "." + r + "." + fn.Name()
	}
	return name
}

// lockSummaries: for every function declaration, the mutexes (write and read lock of one mutex count as the same
// mutex) it may take itself or through statically resolved calls into this module; function literals are their
// own units and are not followed
func lockSummaries(pkgs []*packages.Package) map[string]map[string]bool {
	direct := map[string]map[string]bool{}
	callees := map[string]map[string]bool{}
	for _, p := range pkgs {
		for _, f := range p.Syntax {
			if strings.HasSuffix(p.Fset.Position(f.Pos()).Filename, "_test.go") {
				continue
			}
			for _, d := range f.Decls {
				fd, ok := d.(*ast.FuncDecl)
				if !ok || fd.Body == nil {
					continue
				}
				name := p.Name + "." + fd.Name.Name
				if fd.Recv != nil && len(fd.Recv.List) > 0 {
					name = p.Name + "." + strings.TrimPrefix(types.ExprString(fd.Recv.List[0].Type), "*") + "." + fd.Name.Name
				}
				direct[name], callees[name] = map[string]bool{}, map[string]bool{}
				ast.Inspect(fd.Body, func(n ast.Node) bool {
					switch x := n.(type) {
					case *ast.FuncLit:
						return false
					case *ast.CallExpr:
						if se, ok := x.Fun.(*ast.SelectorExpr); ok {
							if s := p.TypesInfo.Selections[se]; s != nil {
								if fn, ok := s.Obj().(*types.Func); ok && fn.Pkg() != nil && fn.Pkg().Path() == "sync" && (fn.Name() == "Lock" || fn.Name() == "RLock") {
									if inner, ok := se.X.(*ast.SelectorExpr); ok {
										if s2 := p.TypesInfo.Selections[inner]; s2 != nil {
											direct[name][strings.TrimPrefix(s2.Recv().String()+"."+s2.Obj().Name(), "*")] = true
										}
									}
									return true
								}
							}
						}
						if c := staticCallee(p.TypesInfo, x); c != "" {
							callees[name][c] = true
						}
					}
					return true
				})
			}
		}
	}
	all := map[string]map[string]bool{}
	for f, d := range direct {
		all[f] = map[string]bool{}
		for m := range d {
			all[f][m] = true
		}
	}
	for changed := true; changed; {
		changed = false
		for f, cs := range callees {
			for c := range cs {
				for m := range all[c] {
					if !all[f][m] {
						all[f][m] = true
						changed = true
					}
				}
			}
		}
	}
	return all
}

type lockSite struct {
	key string
	pos token.Pos
}

// fields documented as protected by a mutex of the same struct: an access must happen with that mutex held
// (lock skeleton: a `need` is emitted in front of the access; the verified checker then rejects any path
// that reaches it without the lock)
var guardedFields = map[string]string{
	"github.com/pion/turn/v5.Client.relayedConn":                             "mutex",
	"github.com/pion/turn/v5.Client.tcpAllocation":                           "mutex",
	"github.com/pion/turn/v5/internal/allocation.Allocation.permissions":     "permissionsLock",
	"github.com/pion/turn/v5/internal/allocation.Allocation.channelBindings": "channelBindingsLock",
	"github.com/pion/turn/v5/internal/allocation.Manager.allocations":        "lock",
	"github.com/pion/turn/v5/internal/allocation.Manager.reservations":       "lock",
	// "Guarded by AllocationManager lock": a mutex of another struct is named by its full key
	"github.com/pion/turn/v5/internal/allocation.Allocation.tcpConnections": "github.com/pion/turn/v5/internal/allocation.Manager.lock",
	"github.com/pion/turn/v5/internal/client.TransactionMap.trMap":          "mutex",
	"github.com/pion/turn/v5/internal/client.binding._refreshedAt":          "mutex",
	"github.com/pion/turn/v5/internal/client.bindingManager.chanMap":        "mutex",
	"github.com/pion/turn/v5/internal/client.bindingManager.addrMap":        "mutex",
	"github.com/pion/turn/v5/internal/client.bindingManager.next":           "mutex",
	"github.com/pion/turn/v5/internal/client.allocation._nonce":             "mutex",
	"github.com/pion/turn/v5/internal/client.allocation._lifetime":          "mutex",
	"github.com/pion/turn/v5/internal/client.PeriodicTimer.stopFunc":        "mutex",
	"github.com/pion/turn/v5/internal/client.permissionMap.permMap":         "mutex",
}

// look-up / removal in the client's transaction table is serialised by Client.mutexTrMap (Insert is not:
// the table has its own internal mutex and a fresh key cannot be found by anybody yet)
var guardedCalls = map[string]string{
	"github.com/pion/turn/v5|github.com/pion/turn/v5/internal/client.TransactionMap.Find":              "github.com/pion/turn/v5.Client.mutexTrMap",
	"github.com/pion/turn/v5|github.com/pion/turn/v5/internal/client.TransactionMap.Delete":            "github.com/pion/turn/v5.Client.mutexTrMap",
	"github.com/pion/turn/v5|github.com/pion/turn/v5/internal/client.TransactionMap.CloseAndDeleteAll": "github.com/pion/turn/v5.Client.mutexTrMap",
}

// helpers documented as "called with the lock held": inside them the lock counts as held, and every call
// to them needs it
var callerHolds = map[string]string{
	"github.com/pion/turn/v5/internal/client.bindingManager.assignChannelNumber": "github.com/pion/turn/v5/internal/client.bindingManager.mutex",
	// the manager calls these with its lock held (DeleteAllocation, Close, addTCPConnection, RemoveTCPConnection)
	"github.com/pion/turn/v5/internal/allocation.Allocation.removeTCPConnection": "github.com/pion/turn/v5/internal/allocation.Manager.lock",
	"github.com/pion/turn/v5/internal/allocation.Allocation.Close":               "github.com/pion/turn/v5/internal/allocation.Manager.lock",
	"github.com/pion/turn/v5/internal/allocation.Manager.isDupeTCPConnection":    "github.com/pion/turn/v5/internal/allocation.Manager.lock",
}

func (t *tr) needFor(lockKey string, at token.Pos) string {
	if t.assumeHeld == lockKey {
		return ".skip"
	}
	// the variant (write / read lock) is the one of the closest preceding Lock/RLock call in this unit
	key := lockKey
	best := token.NoPos
	for _, l := range t.fnLockSites {
		if (l.key == lockKey || l.key == lockKey+"#R") && l.pos < at && l.pos > best {
			best, key = l.pos, l.key
		}
	}
	if _, ok := t.locks[key]; !ok {
		t.locks[key] = len(t.locks)
	}
	return fmt.Sprintf("(.need %d)", t.locks[key])
}

// scanLocks: which mutexes does this body lock itself (closures excluded: they run at another time)
func (t *tr) scanLocks(body *ast.BlockStmt) []lockSite {
	var m []lockSite
	ast.Inspect(body, func(n ast.Node) bool {
		switch x := n.(type) {
		case *ast.FuncLit:
			return false
		case *ast.CallExpr:
			se, ok := x.Fun.(*ast.SelectorExpr)
			if !ok {
				return true
			}
			s := t.pkg.TypesInfo.Selections[se]
			if s == nil {
				return true
			}
			fn, isFn := s.Obj().(*types.Func)
			if !isFn || fn.Pkg() == nil || fn.Pkg().Path() != "sync" {
				return true
			}
			inner, ok := se.X.(*ast.SelectorExpr)
			if !ok {
				return true
			}
			key := types.ExprString(inner.X)
			if s2 := t.pkg.TypesInfo.Selections[inner]; s2 != nil {
				key = strings.TrimPrefix(s2.Recv().String()+"."+s2.Obj().Name(), "*")
			}
			switch fn.Name() {
			case "Lock":
				m = append(m, lockSite{key, x.Pos()})
			case "RLock":
				m = append(m, lockSite{key + "#R", x.Pos()})
			}
		}
		return true
	})
	return m
}

// guardedAccess: `x.f` where f is a guarded field -> the lock key that must be held
func (t *tr) guardedAccess(se *ast.SelectorExpr) (string, bool) {
	s := t.pkg.TypesInfo.Selections[se]
	if s == nil || s.Kind() != types.FieldVal {
		return "", false
	}
	recv := strings.TrimPrefix(s.Recv().String(), "*")
	if mu, ok := guardedFields[recv+"."+s.Obj().Name()]; ok {
		if strings.Contains(mu, "/") {
			return mu, true
		}
		return recv + "." + mu, true
	}
	return "", false
}

var interesting = map[string]bool{
	"authenticateRequest": true, "GetAllocationForUserID": true, "GetAllocation": true, "GrantPermission": true, "ipMatchesFamily": true,
	"CreateAllocation": true, "DeleteAllocation": true, "Refresh": true, "AddPermission": true, "AddChannelBind": true,
	"CreateTCPConnection": true, "GetTCPConnection": true, "CreateReservation": true, "SetResponseCache": true, "WriteTo": true,
	"Valid": true, "NewPermission": true,
}

// call ids are fixed by the (sorted) list of interesting function names, so that the requirement
// table in Lean can name them; the id does not depend on the traversal order
func shortName(full string) string { return full[strings.LastIndex(full, ".")+1:] }

func (t *tr) callID(name string) int {
	var names []string
	for n := range interesting {
		names = append(names, n)
	}
	sort.Strings(names)
	for i, n := range names {
		if n == shortName(name) {
			t.calls[name] = i
			return i
		}
	}
	panic("unknown callee " + name)
}

// calleeName resolves a call to "pkg.Recv.Method" / "pkg.Func" for functions of this module
func (t *tr) calleeName(call *ast.CallExpr) string {
	var obj types.Object
	switch f := call.Fun.(type) {
	case *ast.Ident:
		obj = t.pkg.TypesInfo.Uses[f]
	case *ast.SelectorExpr:
		if s := t.pkg.TypesInfo.Selections[f]; s != nil {
			obj = s.Obj()
		} else {
			obj = t.pkg.TypesInfo.Uses[f.Sel]
		}
	}
	fn, ok := obj.(*types.Func)
	if !ok || fn.Pkg() == nil || !strings.HasPrefix(fn.Pkg().Path(), "github.com/pion/turn") || !interesting[fn.Name()] {
		return ""
	}
	name := fn.Pkg().Name() + "." + fn.Name()
	if sig, ok := fn.Type().(*types.Signature); ok && sig.Recv() != nil {
		r := sig.Recv().Type().String()
		r = r[strings.LastIndex(r, ".")+1:]
		name = fn.Pkg().Name() + "." + r + "." + fn.Name()
	}
	return name
}

func (t *tr) lockID(sel *ast.SelectorExpr, read bool) int {
	// identify the mutex by the declared field / variable, not by the expression text
	key := types.ExprString(sel.X)
	if s := t.pkg.TypesInfo.Selections[sel]; s != nil {
		key = s.Recv().String() + "." + s.Obj().Name()
		key = strings.TrimPrefix(key, "*")
	}
	if read {
		key += "#R"
	}
	if _, ok := t.locks[key]; !ok {
		t.locks[key] = len(t.locks)
	}
	return t.locks[key]
}

// syncCall reports whether call is X.Lock/Unlock/RLock/RUnlock on a sync mutex
func (t *tr) syncCall(call *ast.CallExpr) (kind string, id int, ok bool) {
	se, isSel := call.Fun.(*ast.SelectorExpr)
	if !isSel {
		return
	}
	s := t.pkg.TypesInfo.Selections[se]
	if s == nil {
		return
	}
	fn, isFn := s.Obj().(*types.Func)
	if !isFn || fn.Pkg() == nil || fn.Pkg().Path() != "sync" {
		return
	}
	if _, isField := se.X.(*ast.SelectorExpr); !isField {
		return
	}
	switch fn.Name() {
	case "Lock":
		return "acq", t.lockID(se.X.(*ast.SelectorExpr), false), true
	case "Unlock":
		return "rel", t.lockID(se.X.(*ast.SelectorExpr), false), true
	case "RLock":
		return "acq", t.lockID(se.X.(*ast.SelectorExpr), true), true
	case "RUnlock":
		return "rel", t.lockID(se.X.(*ast.SelectorExpr), true), true
	}
	return
}

func seq(parts ...string) string {
	var ps []string
	for _, p := range parts {
		if p != ".skip" && p != "" {
			ps = append(ps, p)
		}
	}
	if len(ps) == 0 {
		return ".skip"
	}
	r := ps[len(ps)-1]
	for i := len(ps) - 2; i >= 0; i-- {
		r = fmt.Sprintf("(.seq %s %s)", ps[i], r)
	}
	return r
}

func alt(parts ...string) string {
	if len(parts) == 0 {
		return ".skip"
	}
	r := parts[len(parts)-1]
	for i := len(parts) - 2; i >= 0; i-- {
		r = fmt.Sprintf("(.alt %s %s)", parts[i], r)
	}
	return r
}

// exprs: lock calls hidden in expressions (rare) + function literals become separate units
func (t *tr) expr(e ast.Node) string {
	var parts []string
	ast.Inspect(e, func(n ast.Node) bool {
		switch x := n.(type) {
		case *ast.FuncLit:
			name := fmt.Sprintf("%s$%d", t.curName, t.nLit)
			if t.effects && !t.inGo {
				// a closure passed as an argument runs during that call: the parent gets a pseudo-call
				// (id 900+k) whose requirements are the guards the closure relies on
				parts = append(parts, fmt.Sprintf("(.call %d)", 900+len(t.closures)))
				t.closures = append(t.closures, name)
			}
			t.funcUnit(name, x.Body)
			return false
		case *ast.SelectorExpr:
			if !t.effects {
				if lk, ok := t.guardedAccess(x); ok {
					parts = append(parts, t.needFor(lk, x.Pos()))
				}
			}
		case *ast.CallExpr:
			if k, id, ok := t.syncCall(x); ok {
				parts = append(parts, fmt.Sprintf("(.%s %d)", k, id))
				return false
			} else if !t.effects {
				if c := staticCallee(t.pkg.TypesInfo, x); c != "" {
					if id, ok := t.fnID[c]; ok {
						parts = append(parts, fmt.Sprintf("(.call %d)", id))
					}
				}
				if se, ok := x.Fun.(*ast.SelectorExpr); ok {
					if sel := t.pkg.TypesInfo.Selections[se]; sel != nil {
						if fn, ok := sel.Obj().(*types.Func); ok && fn.Pkg() != nil {
							if sig, ok := fn.Type().(*types.Signature); ok && sig.Recv() != nil {
								full := strings.TrimPrefix(sig.Recv().Type().String(), "*") + "." + fn.Name()
								if lk, ok := guardedCalls[t.pkg.PkgPath+"|"+full]; ok {
									parts = append(parts, t.needFor(lk, x.Pos()))
								}
								if lk, ok := callerHolds[full]; ok {
									parts = append(parts, t.needFor(lk, x.Pos()))
								}
							}
						}
					}
				}
			} else if t.effects {
				if n := t.calleeName(x); n != "" {
					// arguments first (they are evaluated before the call)
					for _, a := range x.Args {
						parts = append(parts, t.expr(a))
					}
					parts = append(parts, fmt.Sprintf("(.call %d)", t.callID(n)))
					return false
				}
			}
		}
		return true
	})
	return seq(parts...)
}

func (t *tr) block(list []ast.Stmt, inSwitch bool) string {
	var parts []string
	for _, s := range list {
		parts = append(parts, t.stmt(s, inSwitch))
	}
	return seq(parts...)
}

func (t *tr) stmt(s ast.Stmt, inSwitch bool) string {
	switch x := s.(type) {
	case nil:
		return ".skip"
	case *ast.BlockStmt:
		return t.block(x.List, inSwitch)
	case *ast.ExprStmt:
		return t.expr(x.X)
	case *ast.DeferStmt:
		if k, id, ok := t.syncCall(x.Call); ok && k == "rel" {
			return fmt.Sprintf("(.deferRel %d)", id)
		}
		return t.expr(x.Call)
	case *ast.GoStmt:
		t.inGo = true
		r := t.expr(x.Call)
		t.inGo = false
		return r
	case *ast.ReturnStmt:
		var parts []string
		for _, r := range x.Results {
			parts = append(parts, t.expr(r))
		}
		parts = append(parts, ".ret")
		return seq(parts...)
	case *ast.IfStmt:
		els := ".skip"
		if x.Else != nil {
			els = t.stmt(x.Else, inSwitch)
		}
		r := seq(t.stmt(x.Init, inSwitch), t.expr(x.Cond), alt(t.stmt(x.Body, inSwitch), els))
		if t.effects && x.Else == nil && alwaysLeaves(x.Body) {
			if g := t.guardOf(x); g >= 0 {
				// falling through this `if` means the guard's check passed
				r = seq(r, fmt.Sprintf("(.acq %d)", 1000+g))
			}
		}
		return r
	case *ast.ForStmt:
		cond := ".skip"
		if x.Cond != nil {
			cond = t.expr(x.Cond)
		}
		return seq(t.stmt(x.Init, false), fmt.Sprintf("(.loop %s)", seq(cond, t.stmt(x.Body, false), t.stmt(x.Post, false))))
	case *ast.RangeStmt:
		return seq(t.expr(x.X), fmt.Sprintf("(.loop %s)", t.stmt(x.Body, false)))
	case *ast.SwitchStmt:
		return seq(t.stmt(x.Init, inSwitch), t.clauses(x.Body))
	case *ast.TypeSwitchStmt:
		return seq(t.stmt(x.Init, inSwitch), t.clauses(x.Body))
	case *ast.SelectStmt:
		return t.clauses(x.Body)
	case *ast.BranchStmt:
		switch x.Tok {
		case token.BREAK:
			if inSwitch {
				// `break` inside switch/select leaves the clause: the rest of the clause is skipped, which for lock
				// and guard accounting is the same as reaching the end of the clause early
				return ".cont"
			}
			return ".brk"
		case token.CONTINUE:
			return ".cont"
		}
		panic("unsupported branch " + x.Tok.String())
	case *ast.AssignStmt:
		var parts []string
		for _, r := range x.Rhs {
			parts = append(parts, t.expr(r))
		}
		if !t.effects {
			for _, l := range x.Lhs {
				parts = append(parts, t.expr(l))
			}
		}
		if t.effects && len(x.Lhs) >= 1 && len(x.Rhs) == 1 {
			if id, ok := x.Lhs[0].(*ast.Ident); ok {
				if c, ok := x.Rhs[0].(*ast.CallExpr); ok {
					n := t.calleeName(c)
					t.lastAssign[id.Name] = n[strings.LastIndex(n, ".")+1:]
				}
			}
		}
		return seq(parts...)
	case *ast.IncDecStmt:
		if !t.effects {
			return t.expr(x.X)
		}
		return ".skip"
	case *ast.DeclStmt, *ast.EmptyStmt:
		return ".skip"
	case *ast.SendStmt:
		return seq(t.expr(x.Chan), t.expr(x.Value))
	case *ast.LabeledStmt:
		panic("labels unsupported")
	}
	panic(fmt.Sprintf("unsupported stmt %T", s))
}

// alwaysLeaves: the block ends in a return (so control continues after the `if` only when cond is false)
func alwaysLeaves(b *ast.BlockStmt) bool {
	if len(b.List) == 0 {
		return false
	}
	_, ok := b.List[len(b.List)-1].(*ast.ReturnStmt)
	return ok
}

// guard ids: 0 auth, 1 owner, 2 grant, 3 family, 4 valid
func (t *tr) guardOf(x *ast.IfStmt) int {
	cond := types.ExprString(x.Cond)
	init := ""
	if x.Init != nil {
		if as, ok := x.Init.(*ast.AssignStmt); ok && len(as.Rhs) == 1 {
			init = types.ExprString(as.Rhs[0])
		}
	}
	switch {
	case cond == "!hasAuth":
		return 0
	case (cond == "alloc == nil" || cond == "a == nil") && t.lastAssign[strings.Fields(cond)[0]] == "GetAllocationForUserID":
		return 1
	case cond == "err != nil" && strings.Contains(init, ".GrantPermission("):
		return 2
	case strings.HasPrefix(cond, "!ipMatchesFamily("):
		return 3
	case strings.HasSuffix(cond, ".Valid()") && strings.HasPrefix(cond, "!"):
		return 4
	}
	return -1
}

func (t *tr) clauses(body *ast.BlockStmt) string {
	var alts []string
	hasDefault := false
	for _, c := range body.List {
		switch cc := c.(type) {
		case *ast.CaseClause:
			if cc.List == nil {
				hasDefault = true
			}
			alts = append(alts, t.block(cc.Body, true))
		case *ast.CommClause:
			if cc.Comm == nil {
				hasDefault = true
			}
			alts = append(alts, seq(t.stmt(cc.Comm, true), t.block(cc.Body, true)))
		}
	}
	if !hasDefault {
		alts = append(alts, ".skip")
	}
	return alt(alts...)
}

func (t *tr) funcUnit(name string, body *ast.BlockStmt) {
	if body == nil {
		return
	}
	saveName, saveN, saveLocks, saveAssume := t.curName, t.nLit, t.fnLockSites, t.assumeHeld
	t.nLit++
	u := &unit{name: name}
	t.units = append(t.units, u)
	t.curName, t.nLit = name, 0
	t.fnLockSites = t.scanLocks(body)
	t.assumeHeld = ""
	for full, lk := range callerHolds {
		// unit names are "pkgname.Recv.Func"; callerHolds keys are "pkgpath.Recv.Func"
		if strings.HasSuffix(full, "."+strings.SplitN(name, ".", 2)[1]) && strings.HasSuffix(strings.TrimSuffix(full, "."+strings.SplitN(name, ".", 2)[1]), "/"+strings.SplitN(name, ".", 2)[0]) {
			t.assumeHeld = lk
		}
	}
	u.body = t.block(body.List, false)
	t.curName, t.nLit, t.fnLockSites, t.assumeHeld = saveName, saveN+1, saveLocks, saveAssume
}

func load(repo string) []*packages.Package {
	cfg := &packages.Config{Mode: packages.NeedName | packages.NeedSyntax | packages.NeedTypes | packages.NeedTypesInfo | packages.NeedFiles | packages.NeedImports | packages.NeedDeps, Dir: repo}
	pkgs, err := packages.Load(cfg, "./internal/allocation", "./internal/client", ".", "./internal/server", "./internal/proto")
	if err != nil {
		fmt.Fprintln(os.Stderr, "xlate: load:", err)
		os.Exit(1)
	}
	for _, p := range pkgs {
		if len(p.Errors) > 0 {
			fmt.Fprintln(os.Stderr, "xlate: package errors:", p.Errors)
			os.Exit(1)
		}
	}
	return pkgs
}

func translate(pkgs []*packages.Package, effects bool) *tr {
	t := &tr{locks: map[string]int{}, calls: map[string]int{}, lastAssign: map[string]string{}, effects: effects}
	if !effects {
		t.acqAll = lockSummaries(pkgs)
		var names []string
		for f, ms := range t.acqAll {
			if len(ms) > 0 {
				names = append(names, f)
			}
		}
		sort.Strings(names)
		t.fnID = map[string]int{}
		for i, f := range names {
			t.fnID[f] = i
		}
	}
	for _, p := range pkgs {
		t.pkg = p
		for _, f := range p.Syntax {
			if strings.HasSuffix(p.Fset.Position(f.Pos()).Filename, "_test.go") {
				continue
			}
			for _, d := range f.Decls {
				fd, ok := d.(*ast.FuncDecl)
				if !ok || fd.Body == nil {
					continue
				}
				name := p.Name + "." + fd.Name.Name
				if fd.Recv != nil && len(fd.Recv.List) > 0 {
					name = p.Name + "." + strings.TrimPrefix(types.ExprString(fd.Recv.List[0].Type), "*") + "." + fd.Name.Name
				}
				t.funcUnit(name, fd.Body)
			}
		}
	}
	return t
}

type kv struct {
	k string
	v int
}

func emitUnits(path, ns string, t *tr, keep func(u *unit) bool, header func(w *strings.Builder)) {
	var w strings.Builder
	fmt.Fprintf(&w, "-- GENERATED by /verif/xlate from /repo's working tree. Do not edit.\nimport TurnModel.Model.Skel\nnamespace Gen.%s\nopen Skel\n", ns)
	var ls []kv
	for k, v := range t.locks {
		ls = append(ls, kv{k, v})
	}
	sort.Slice(ls, func(i, j int) bool { return ls[i].v < ls[j].v })
	for _, l := range ls {
		fmt.Fprintf(&w, "-- lock %d = %s\n", l.v, l.k)
	}
	if header != nil {
		header(&w)
	}
	var names []string
	n := 0
	for _, u := range t.units {
		if !keep(u) {
			continue
		}
		id := fmt.Sprintf("f%d", n)
		n++
		fmt.Fprintf(&w, "/-- %s -/\ndef %s : Stmt := %s\n", u.name, id, u.body)
		names = append(names, fmt.Sprintf("(%q, %s)", u.name, id))
	}
	fmt.Fprintf(&w, "def all : List (String × Stmt) := [%s]\n", strings.Join(names, ",\n  "))
	fmt.Fprintf(&w, "end Gen.%s\n", ns)
	if err := os.WriteFile(path, []byte(w.String()), 0o644); err != nil {
		panic(err)
	}
}

func leanName(s string) string {
	return strings.NewReplacer(".", "_", "/", "_", "-", "_").Replace(s)
}

// consts: every package-level integer / duration constant, NewServer defaults, designated thresholds
func emitConsts(path string, pkgs []*packages.Package) {
	var w strings.Builder
	fmt.Fprintf(&w, "-- GENERATED by /verif/xlate from /repo's working tree. Do not edit.\nnamespace Gen.Consts\n")
	seen := map[string]bool{}
	emit := func(name string, v constant.Value) {
		if seen[name] {
			return
		}
		if v.Kind() != constant.Int {
			return
		}
		if i, ok := constant.Int64Val(v); ok {
			seen[name] = true
			fmt.Fprintf(&w, "def %s : Int := %d\n", name, i)
		}
	}
	for _, p := range pkgs {
		scope := p.Types.Scope()
		names := scope.Names()
		sort.Strings(names)
		for _, n := range names {
			if c, ok := scope.Lookup(n).(*types.Const); ok {
				emit(leanName(p.Name+"."+n), c.Val())
			}
		}
		for _, f := range p.Syntax {
			if strings.HasSuffix(p.Fset.Position(f.Pos()).Filename, "_test.go") {
				continue
			}
			for _, d := range f.Decls {
				fd, ok := d.(*ast.FuncDecl)
				if !ok || fd.Body == nil {
					continue
				}
				switch fd.Name.Name {
				case "NewServer":
					// `if server.X == 0 { server.X = <const> }`
					ast.Inspect(fd.Body, func(n ast.Node) bool {
						is, ok := n.(*ast.IfStmt)
						if !ok || len(is.Body.List) != 1 {
							return true
						}
						be, ok := is.Cond.(*ast.BinaryExpr)
						if !ok || be.Op != token.EQL || types.ExprString(be.Y) != "0" {
							return true
						}
						as, ok := is.Body.List[0].(*ast.AssignStmt)
						if !ok || len(as.Lhs) != 1 || len(as.Rhs) != 1 || types.ExprString(as.Lhs[0]) != types.ExprString(be.X) {
							return true
						}
						if tv, ok := p.TypesInfo.Types[as.Rhs[0]]; ok && tv.Value != nil {
							emit("default_"+leanName(strings.TrimPrefix(types.ExprString(be.X), "server.")), tv.Value)
						}
						return true
					})
					// `mtu := defaultInboundMTU`
					ast.Inspect(fd.Body, func(n ast.Node) bool {
						as, ok := n.(*ast.AssignStmt)
						if ok && len(as.Lhs) == 1 && types.ExprString(as.Lhs[0]) == "mtu" && len(as.Rhs) == 1 {
							if tv, ok := p.TypesInfo.Types[as.Rhs[0]]; ok && tv.Value != nil {
								emit("default_inboundMTU", tv.Value)
							}
						}
						return true
					})
				case "consumeSingleTURNFrame":
					// the first `if len(b) < N` decides how many bytes are needed to classify a frame
					if is, ok := fd.Body.List[0].(*ast.IfStmt); ok {
						if be, ok := is.Cond.(*ast.BinaryExpr); ok && be.Op == token.LSS && types.ExprString(be.X) == "len(b)" {
							if tv, ok := p.TypesInfo.Types[be.Y]; ok && tv.Value != nil {
								emit("framer_minHeader", tv.Value)
							}
						}
					}
				case "packetConnHandler":
					// `buffer := make([]byte, N)` and `if n > M`
					ast.Inspect(fd.Body, func(n ast.Node) bool {
						switch x := n.(type) {
						case *ast.CallExpr:
							if types.ExprString(x.Fun) == "make" && len(x.Args) == 2 {
								if tv, ok := p.TypesInfo.Types[x.Args[1]]; ok && tv.Value != nil {
									emit("relay_bufferSize", tv.Value)
								}
							}
						case *ast.IfStmt:
							if be, ok := x.Cond.(*ast.BinaryExpr); ok && be.Op == token.GTR && types.ExprString(be.X) == "n" {
								if tv, ok := p.TypesInfo.Types[be.Y]; ok && tv.Value != nil {
									emit("relay_dropAbove", tv.Value)
								}
							}
						}
						return true
					})
				case "CreateReservation":
					ast.Inspect(fd.Body, func(n ast.Node) bool {
						if c, ok := n.(*ast.CallExpr); ok && types.ExprString(c.Fun) == "time.AfterFunc" && len(c.Args) == 2 {
							if tv, ok := p.TypesInfo.Types[c.Args[0]]; ok && tv.Value != nil {
								emit("reservation_timeout", tv.Value)
							}
						}
						return true
					})
				}
			}
		}
	}
	fmt.Fprintf(&w, "end Gen.Consts\n")
	if err := os.WriteFile(path, []byte(w.String()), 0o644); err != nil {
		panic(err)
	}
}

func main() {
	repo := flag.String("repo", "/repo", "repository root")
	out := flag.String("out", ".", "output directory")
	flag.Parse()
	defer func() {
		if r := recover(); r != nil {
			fmt.Fprintln(os.Stderr, "xlate: unsupported construct:", r)
			os.Exit(2)
		}
	}()
	pkgs := load(*repo)
	// Every generated file is produced on its own: a construct the translator does not support in one part (say, the
	// port expression) must not take the obligations of the other parts down with it.  A failed part is replaced by a
	// stub without the definitions, so exactly the theorems that depend on it stop checking.
	section := func(file, ns string, f func()) {
		defer func() {
			if r := recover(); r != nil {
				fmt.Fprintf(os.Stderr, "xlate: %s not generated: unsupported construct: %v\n", file, r)
				fmt.Printf("xlate: %s FAILED: %v\n", file, r)
				stub := fmt.Sprintf("-- GENERATED by /verif/xlate from /repo's working tree. Do not edit.\n-- TRANSLATION FAILED: %s\nnamespace Gen.%s\ndef translationFailed : String := %q\nend Gen.%s\n",
					strings.ReplaceAll(fmt.Sprint(r), "\n", " "), ns, fmt.Sprint(r), ns)
				_ = os.WriteFile(filepath.Join(*out, file), []byte(stub), 0o644)
			}
		}()
		f()
	}
	var tl, te *tr
	section("Locks.lean", "Locks", func() {
		// lock skeletons
		tl = translate(pkgs, false)
		emitUnits(filepath.Join(*out, "Locks.lean"), "Locks", tl, func(u *unit) bool {
			return strings.Contains(u.body, ".acq") || strings.Contains(u.body, ".rel") || strings.Contains(u.body, ".deferRel") || strings.Contains(u.body, ".need")
		}, func(w *strings.Builder) {
			// mutex of every lock id (the write and the read lock of one mutex are the same mutex)
			mutexIdx := map[string]int{}
			var keys []kv
			for k, v := range tl.locks {
				keys = append(keys, kv{k, v})
			}
			sort.Slice(keys, func(i, j int) bool { return keys[i].v < keys[j].v })
			var mo []string
			for _, l := range keys {
				base := strings.TrimSuffix(l.k, "#R")
				if _, ok := mutexIdx[base]; !ok {
					mutexIdx[base] = len(mutexIdx)
				}
				mo = append(mo, fmt.Sprintf("(%d, %d)", l.v, mutexIdx[base]))
			}
			fmt.Fprintf(w, "def mutexOf : List (Nat × Nat) := [%s]\n", strings.Join(mo, ", "))
			// which mutexes a call to function id may take (transitively, statically resolved callees only)
			var names []string
			for f := range tl.fnID {
				names = append(names, f)
			}
			sort.Strings(names)
			var ac []string
			for _, f := range names {
				var ms []int
				for m := range tl.acqAll[f] {
					if _, ok := mutexIdx[m]; !ok {
						mutexIdx[m] = len(mutexIdx)
					}
					ms = append(ms, mutexIdx[m])
				}
				sort.Ints(ms)
				var ss []string
				for _, m := range ms {
					ss = append(ss, fmt.Sprint(m))
				}
				fmt.Fprintf(w, "-- fn %d = %s\n", tl.fnID[f], f)
				ac = append(ac, fmt.Sprintf("(%d, [%s])", tl.fnID[f], strings.Join(ss, ", ")))
			}
			fmt.Fprintf(w, "def acquires : List (Nat × List Nat) := [%s]\n", strings.Join(ac, ",\n  "))
		})
	})
	section("Eff.lean", "Eff", func() {
		// effect skeletons of the request handlers
		te = translate(pkgs, true)
		emitUnits(filepath.Join(*out, "Eff.lean"), "Eff", te, func(u *unit) bool {
			return strings.HasPrefix(u.name, "server.handle")
		}, func(w *strings.Builder) {
			var names []string
			for n := range interesting {
				names = append(names, n)
			}
			sort.Strings(names)
			for i, n := range names {
				fmt.Fprintf(w, "def id_%s : Nat := %d\n", n, i)
			}
			for i, c := range te.closures {
				fmt.Fprintf(w, "-- closure call %d = %s\n", 900+i, c)
			}
			fmt.Fprintf(w, "def closures : List (Nat × String) := [")
			for i, c := range te.closures {
				if i > 0 {
					fmt.Fprintf(w, ", ")
				}
				fmt.Fprintf(w, "(%d, %q)", 900+i, c)
			}
			fmt.Fprintf(w, "]\n")
		})
	})
	section("Consts.lean", "Consts", func() { emitConsts(filepath.Join(*out, "Consts.lean"), pkgs) })
	section("Facts.lean", "Facts", func() { emitFacts(filepath.Join(*out, "Facts.lean"), pkgs) })
	section("Expr.lean", "Expr", func() { emitExprs(filepath.Join(*out, "Expr.lean"), pkgs) })
	if tl != nil && te != nil {
		fmt.Printf("xlate: %d lock units, %d locks, %d handler units\n", countUnits(tl, false), len(tl.locks), countUnits(te, true))
	}
}

func nodeText(p *packages.Package, n ast.Node) string {
	var b strings.Builder
	_ = printer.Fprint(&b, p.Fset, n)

	return b.String()
}

// facts: designated ordering facts read off the AST (true/false), each the hypothesis of a small
// interleaving theorem in Props/C18.lean
func emitFacts(path string, pkgs []*packages.Package) {
	var w strings.Builder
	fmt.Fprintf(&w, "-- GENERATED by /verif/xlate from /repo's working tree. Do not edit.\nnamespace Gen.Facts\n")
	found := map[string]bool{}
	for _, p := range pkgs {
		for _, f := range p.Syntax {
			for _, d := range f.Decls {
				fd, ok := d.(*ast.FuncDecl)
				if !ok || fd.Body == nil {
					continue
				}
				if p.Name == "allocation" && fd.Name.Name == "addTCPConnection" {
					// the bind timer's callback (the func literal handed to time.AfterFunc) takes the manager's lock
					// BEFORE it first looks at isBound: its decision and its removal are one critical section
					ast.Inspect(fd.Body, func(n ast.Node) bool {
						call, ok := n.(*ast.CallExpr)
						if !ok || types.ExprString(call.Fun) != "time.AfterFunc" || len(call.Args) != 2 {
							return true
						}
						lit, ok := call.Args[1].(*ast.FuncLit)
						if !ok {
							return true
						}
						lockAt, boundAt, unlockAt := -1, -1, -1
						for i, st := range lit.Body.List {
							txt := nodeText(p, st)
							if es, ok := st.(*ast.ExprStmt); ok && types.ExprString(es.X) == "m.lock.Lock()" && lockAt < 0 {
								lockAt = i
							}
							if es, ok := st.(*ast.ExprStmt); ok && types.ExprString(es.X) == "m.lock.Unlock()" && unlockAt < 0 {
								unlockAt = i
							}
							if strings.Contains(txt, "isBound") && boundAt < 0 {
								boundAt = i
							}
						}
						// the removal must not leave the critical section either: no explicit Unlock before the end
						// (a deferred one is fine), and no call that takes the lock again
						found["bindTimer_decides_under_lock"] = lockAt >= 0 && boundAt > lockAt && unlockAt < 0 &&
							!strings.Contains(nodeText(p, lit.Body), "RemoveTCPConnection(m,")
						return false
					})
				}
				if p.Name == "allocation" && fd.Recv != nil && (fd.Name.Name == "expirePermission" || fd.Name.Name == "expireChannelBind") {
					// the expiry callback of an entry takes the list's lock first and, inside that critical section, stands down
					// unless the entry is still listed (by identity) and its expiry time has come
					lock := "a.permissionsLock"
					ident := "!= perm"
					if fd.Name.Name == "expireChannelBind" {
						lock, ident = "a.channelBindingsLock", "!= chanBind"
					}
					txt := nodeText(p, fd.Body)
					first := ""
					if len(fd.Body.List) > 0 {
						first = nodeText(p, fd.Body.List[0])
					}
					found["entryExpiry_"+fd.Name.Name] = first == lock+".Lock()" && strings.Contains(txt, "defer "+lock+".Unlock()") &&
						strings.Contains(txt, "time.Now().Before(") && strings.Contains(txt, ident) && !strings.Contains(txt, lock+".Unlock()\n\t"+lock)
				}
				if p.Name == "allocation" && fd.Recv != nil && fd.Name.Name == "start" {
					// the timers started for permissions and bindings call those callbacks
					txt := nodeText(p, fd.Body)
					if strings.Contains(txt, "expirePermission(p)") {
						found["entryExpiry_startPermission"] = true
					}
					if strings.Contains(txt, "expireChannelBind(c)") {
						found["entryExpiry_startChannelBind"] = true
					}
				}
				if p.Name == "allocation" && fd.Recv != nil && (fd.Name.Name == "AddPermission" || fd.Name.Name == "AddChannelBind") {
					// lookup + refresh happen inside the write-locked section (no read-locked lookup followed by an unlocked refresh)
					lock := "a.permissionsLock"
					if fd.Name.Name == "AddChannelBind" {
						lock = "a.channelBindingsLock"
					}
					// walk the top-level statements: the lock is taken, and the statement that refreshes comes while it is held;
					// inside that statement nothing unlocks before the refresh (branches that unlock and return earlier are fine)
					locked, ok := false, false
					for _, st := range fd.Body.List {
						txt := nodeText(p, st)
						if es, isExpr := st.(*ast.ExprStmt); isExpr {
							switch types.ExprString(es.X) {
							case lock + ".Lock()":
								locked = true
							case lock + ".Unlock()":
								locked = false
							}
						}
						if ri := strings.Index(txt, ".refresh("); ri >= 0 {
							ok = locked && !strings.Contains(txt[:ri], lock+".Unlock()")
							break
						}
					}
					found["entryRefresh_"+fd.Name.Name] = ok && !strings.Contains(nodeText(p, fd.Body), lock+".RLock()")
				}
				if p.Name == "allocation" && fd.Recv != nil && fd.Name.Name == "deleteAllocation" {
					// deleteAllocation(fiveTuple, only) stands down when `only` is given and another allocation is registered
					found["byObject_deleteAllocation"] = strings.Contains(nodeText(p, fd.Body), "only != nil && allocation != only")
				}
				if p.Name == "allocation" && fd.Recv != nil && (fd.Name.Name == "packetConnHandler" || fd.Name.Name == "connHandler") {
					// an allocation's relay readers delete by object: deleteAllocation(a.fiveTuple, a), never DeleteAllocation(5-tuple)
					txt := nodeText(p, fd.Body)
					found["byObject_"+fd.Name.Name] = strings.Contains(txt, "deleteAllocation(a.fiveTuple, a)") && !strings.Contains(txt, "DeleteAllocation(") &&
						strings.Count(txt, "deleteAllocation(") == strings.Count(txt, "deleteAllocation(a.fiveTuple, a)")
				}
				if p.Name == "allocation" && fd.Recv != nil && fd.Name.Name == "CreateAllocation" {
					// ... and so does its lifetime timer
					ok := false
					ast.Inspect(fd.Body, func(n ast.Node) bool {
						call, isCall := n.(*ast.CallExpr)
						if !isCall || types.ExprString(call.Fun) != "time.AfterFunc" || len(call.Args) != 2 {
							return true
						}
						txt := nodeText(p, call.Args[1])
						ok = strings.Contains(txt, "deleteAllocation(alloc.fiveTuple, alloc)") && !strings.Contains(txt, "DeleteAllocation(")
						return false
					})
					found["byObject_lifetimeTimer"] = ok
				}
				if p.Name == "allocation" && fd.Recv != nil && (fd.Name.Name == "AddPermission" || fd.Name.Name == "AddChannelBind" || fd.Name.Name == "addTCPConnection") {
					// attach steps look at the allocation's closed mark after taking the lock under which they insert, and before inserting
					txt := nodeText(p, fd.Body)
					lock, check, insert := "a.permissionsLock.Lock()", "a.isClosed()", "a.permissions[fingerprint] = perms"
					switch fd.Name.Name {
					case "AddChannelBind":
						lock, insert = "a.channelBindingsLock.Lock()", "a.channelBindings = append(a.channelBindings, chanBind)"
					case "addTCPConnection":
						lock, check, insert = "m.lock.Lock()", "<-allocation.closed", "allocation.tcpConnections[connectionID] = tcpConn"
					}
					li, ci, ii := strings.Index(txt, lock), strings.Index(txt, check), strings.Index(txt, insert)
					found["attach_"+fd.Name.Name] = li >= 0 && ci > li && ii > ci
				}
				if p.Name == "allocation" && fd.Name.Name == "Refresh" && fd.Recv != nil {
					// Allocation.Refresh reports the outcome of lifetimeTimer.Reset: false when the timer had fired or been stopped
					txt := nodeText(p, fd.Body)
					found["refresh_reports_expiry_alloc"] = fd.Type.Results != nil && len(fd.Type.Results.List) == 1 &&
						strings.Contains(txt, "if !a.lifetimeTimer.Reset(lifetime)") && strings.Contains(txt, "return false")
				}
				if p.Name == "server" && fd.Name.Name == "handleRefreshRequest" {
					// the handler answers success only when Refresh reported that the lifetime had not run out
					ok := false
					ast.Inspect(fd.Body, func(n ast.Node) bool {
						if is, isIf := n.(*ast.IfStmt); isIf && strings.Contains(types.ExprString(is.Cond), "!a.Refresh(") {
							last := is.Body.List[len(is.Body.List)-1]
							if _, isRet := last.(*ast.ReturnStmt); isRet && strings.Contains(nodeText(p, last), "errNoAllocationFound") {
								ok = true
							}
						}
						return true
					})
					found["refresh_reports_expiry_handler"] = ok
				}
				if p.Name == "client" && fd.Recv != nil && (fd.Name.Name == "createPermission" || fd.Name.Name == "forgetIdlePermission") {
					// a writer that gives up removes the permission entry through deleteIf(addr, perm) only
					txt := nodeText(p, fd.Body)
					key := "clientPerm_" + fd.Name.Name
					found[key] = (strings.Contains(txt, "permMap.deleteIf(addr, perm)") || strings.Contains(txt, "permMap.deleteIfIdle(addr, perm)")) &&
						!strings.Contains(txt, "permMap.delete(")
				}
				if p.Name == "allocation" && fd.Name.Name == "AddPermission" {
					// the permission's timer is armed (perms.start) while permissionsLock is write-held, i.e. between
					// `a.permissionsLock.Lock()` and `a.permissionsLock.Unlock()` in the same block, and the
					// OnPermissionCreated callback runs after the Unlock
					lockAt, startAt, unlockAt, cbAt := -1, -1, -1, -1
					for i, st := range fd.Body.List {
						switch x := st.(type) {
						case *ast.ExprStmt:
							e := types.ExprString(x.X)
							switch {
							case e == "a.permissionsLock.Lock()":
								lockAt = i
							case e == "a.permissionsLock.Unlock()":
								unlockAt = i
							case strings.HasPrefix(e, "perms.start("):
								startAt = i
							}
						case *ast.IfStmt:
							if strings.Contains(types.ExprString(x.Cond), "OnPermissionCreated") {
								cbAt = i
							}
						}
					}
					found["addPermission_arms_under_lock"] = lockAt >= 0 && lockAt < startAt && startAt < unlockAt
					found["addPermission_callback_after_unlock"] = unlockAt >= 0 && cbAt > unlockAt
				}
			}
		}
	}
	found["refresh_reports_expiry"] = found["refresh_reports_expiry_alloc"] && found["refresh_reports_expiry_handler"]
	found["clientPerm_delete_conditional"] = found["clientPerm_createPermission"] && found["clientPerm_forgetIdlePermission"]
	found["attach_checks_closed_under_lock"] = found["attach_AddPermission"] && found["attach_AddChannelBind"] && found["attach_addTCPConnection"]
	found["ownGoroutines_delete_by_object"] = found["byObject_deleteAllocation"] && found["byObject_packetConnHandler"] &&
		found["byObject_connHandler"] && found["byObject_lifetimeTimer"]
	if os.Getenv("XLATE_DEBUG") != "" {
		fmt.Fprintf(os.Stderr, "facts: %v\n", found)
	}
	found["entryExpiry_decides_under_lock"] = found["entryExpiry_expirePermission"] && found["entryExpiry_expireChannelBind"] &&
		found["entryExpiry_startPermission"] && found["entryExpiry_startChannelBind"] &&
		found["entryRefresh_AddPermission"] && found["entryRefresh_AddChannelBind"]
	for _, k := range []string{"addPermission_arms_under_lock", "addPermission_callback_after_unlock", "bindTimer_decides_under_lock",
		"refresh_reports_expiry", "clientPerm_delete_conditional", "entryExpiry_decides_under_lock", "ownGoroutines_delete_by_object", "attach_checks_closed_under_lock"} {
		fmt.Fprintf(&w, "def %s : Bool := %v\n", k, found[k])
	}
	fmt.Fprintf(&w, "end Gen.Facts\n")
	if err := os.WriteFile(path, []byte(w.String()), 0o644); err != nil {
		panic(err)
	}
}

// ---- designated integer expressions: Go uint16 arithmetic -> BitVec 16 ----

type exprCtx struct {
	p    *packages.Package
	intn string // Lean text of the argument passed to Rand.Intn, captured while translating
}

// bv translates an expression of Go type uint16 into a Lean `BitVec 16` term over `min max : BitVec 16`, `k : Nat`
func (c *exprCtx) bv(e ast.Expr) string {
	switch x := e.(type) {
	case *ast.ParenExpr:
		return c.bv(x.X)
	case *ast.SelectorExpr:
		switch types.ExprString(x) {
		case "r.MinPort":
			return "min"
		case "r.MaxPort":
			return "max"
		}
	case *ast.BasicLit:
		return x.Value + "#16"
	case *ast.BinaryExpr:
		if t := c.p.TypesInfo.TypeOf(x); t == nil || t.String() != "uint16" {
			panic("port expression: operand is not uint16: " + types.ExprString(x))
		}
		switch x.Op {
		case token.ADD:
			return "(" + c.bv(x.X) + " + " + c.bv(x.Y) + ")"
		case token.SUB:
			return "(" + c.bv(x.X) + " - " + c.bv(x.Y) + ")"
		}
	case *ast.CallExpr:
		if types.ExprString(x.Fun) == "uint16" && len(x.Args) == 1 {
			if call, ok := x.Args[0].(*ast.CallExpr); ok && types.ExprString(call.Fun) == "r.Rand.Intn" && len(call.Args) == 1 {
				c.intn = c.nat(call.Args[0])
				return "(BitVec.ofNat 16 k)"
			}
		}
	}
	panic("port expression: unsupported uint16 expression " + types.ExprString(e))
}

// nat translates an expression of Go type int
func (c *exprCtx) nat(e ast.Expr) string {
	switch x := e.(type) {
	case *ast.ParenExpr:
		return c.nat(x.X)
	case *ast.CallExpr:
		if types.ExprString(x.Fun) == "int" && len(x.Args) == 1 {
			return "(" + c.bv(x.Args[0]) + ").toNat"
		}
	}
	panic("port expression: unsupported int expression " + types.ExprString(e))
}

func emitExprs(path string, pkgs []*packages.Package) {
	var w strings.Builder
	fmt.Fprintf(&w, "-- GENERATED by /verif/xlate from /repo's working tree. Do not edit.\nnamespace Gen.Expr\n")
	for _, p := range pkgs {
		if p.Name != "turn" {
			continue
		}
		for _, f := range p.Syntax {
			for _, d := range f.Decls {
				fd, ok := d.(*ast.FuncDecl)
				if !ok || fd.Body == nil || fd.Recv == nil || !strings.Contains(types.ExprString(fd.Recv.List[0].Type), "RelayAddressGeneratorPortRange") {
					continue
				}
				if fd.Name.Name != "AllocatePacketConn" && fd.Name.Name != "AllocateListener" {
					continue
				}
				n := 0
				ast.Inspect(fd.Body, func(nd ast.Node) bool {
					as, ok := nd.(*ast.AssignStmt)
					if !ok || len(as.Lhs) != 1 || types.ExprString(as.Lhs[0]) != "port" || len(as.Rhs) != 1 {
						return true
					}
					if !strings.Contains(types.ExprString(as.Rhs[0]), "Intn") {
						return true
					}
					c := &exprCtx{p: p}
					var body string
					if t := p.TypesInfo.TypeOf(as.Rhs[0]); t != nil && t.String() == "int" {
						body = c.nat(as.Rhs[0]) // AllocateListener: int(uint16 expr)
					} else {
						body = "(" + c.bv(as.Rhs[0]) + ").toNat"
					}
					n++
					fmt.Fprintf(&w, "/-- %s: `%s` -/\ndef port_%s (min max : BitVec 16) (k : Nat) : Nat := %s\n", fd.Name.Name, types.ExprString(as.Rhs[0]), fd.Name.Name, body)
					fmt.Fprintf(&w, "def intn_%s (min max : BitVec 16) : Nat := %s\n", fd.Name.Name, c.intn)
					return true
				})
				if n != 1 {
					panic(fmt.Sprintf("port expression: expected exactly one `port := … Intn …` in %s, found %d", fd.Name.Name, n))
				}
			}
		}
	}
	fmt.Fprintf(&w, "end Gen.Expr\n")
	if err := os.WriteFile(path, []byte(w.String()), 0o644); err != nil {
		panic(err)
	}
}

func countUnits(t *tr, eff bool) int {
	n := 0
	for _, u := range t.units {
		if eff {
			if strings.HasPrefix(u.name, "server.handle") {
				n++
			}
		} else if strings.Contains(u.body, ".acq") || strings.Contains(u.body, ".rel") || strings.Contains(u.body, ".deferRel") {
			n++
		}
	}
	return n
}
